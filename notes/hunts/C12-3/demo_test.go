// place in: .
package slug

// Pack follows a source directory that is a symbolic link for exactly one
// hop. When the link leads to another link (current -> release -> the real
// directory), the walk starts at that second link, sees "not a directory",
// visits nothing, and Pack returns success with an empty slug.

import (
	"archive/tar"
	"bytes"
	"compress/gzip"
	"io"
	"os"
	"path/filepath"
	"reflect"
	"sort"
	"testing"
)

func huntSlugNames(t *testing.T, slug []byte) []string {
	t.Helper()
	zr, err := gzip.NewReader(bytes.NewReader(slug))
	if err != nil {
		t.Fatal(err)
	}
	tr := tar.NewReader(zr)
	names := []string{}
	for {
		hdr, err := tr.Next()
		if err == io.EOF {
			break
		}
		if err != nil {
			t.Fatal(err)
		}
		names = append(names, hdr.Name)
	}
	sort.Strings(names)
	return names
}

func TestHuntPackRootBehindTwoSymlinksGivesEmptySlug(t *testing.T) {
	base, err := filepath.EvalSymlinks(t.TempDir())
	if err != nil {
		t.Fatal(err)
	}
	realDir := filepath.Join(base, "config-v2")
	if err := os.MkdirAll(filepath.Join(realDir, "sub"), 0755); err != nil {
		t.Fatal(err)
	}
	if err := os.WriteFile(filepath.Join(realDir, "main.tf"), []byte("# main\n"), 0644); err != nil {
		t.Fatal(err)
	}
	if err := os.WriteFile(filepath.Join(realDir, "sub", "vars.tf"), []byte("# vars\n"), 0644); err != nil {
		t.Fatal(err)
	}
	release := filepath.Join(base, "release") // release -> config-v2
	if err := os.Symlink(realDir, release); err != nil {
		t.Fatal(err)
	}
	current := filepath.Join(base, "current") // current -> release
	if err := os.Symlink(release, current); err != nil {
		t.Fatal(err)
	}
	want := []string{"main.tf", "sub/", "sub/vars.tf"}

	// One hop: fine (this is what TestPack_rootIsSymlink covers).
	var oneHop bytes.Buffer
	meta, err := Pack(release, &oneHop, false)
	if err != nil {
		t.Fatalf("one hop: %v", err)
	}
	sort.Strings(meta.Files)
	if !reflect.DeepEqual(meta.Files, want) {
		t.Fatalf("one hop: packed %v, want %v", meta.Files, want)
	}

	// Two hops: either the same slug or an error would do; an empty slug
	// reported as success will not.
	for _, tc := range []struct {
		name string
		pack func(w io.Writer) (*Meta, error)
	}{
		{"Pack", func(w io.Writer) (*Meta, error) { return Pack(current, w, false) }},
		{"Pack dereference", func(w io.Writer) (*Meta, error) { return Pack(current, w, true) }},
		{"Packer.Pack", func(w io.Writer) (*Meta, error) {
			p, err := NewPacker()
			if err != nil {
				return nil, err
			}
			return p.Pack(current, w)
		}},
	} {
		t.Run(tc.name, func(t *testing.T) {
			var twoHops bytes.Buffer
			meta, err := tc.pack(&twoHops)
			if err != nil {
				t.Logf("reported an error, which is acceptable: %v", err)
				return
			}
			got := huntSlugNames(t, twoHops.Bytes())
			if !reflect.DeepEqual(got, want) {
				t.Errorf("Pack returned success, but the slug contains %v (Meta.Files %v), want %v", got, meta.Files, want)
			}
		})
	}
}
