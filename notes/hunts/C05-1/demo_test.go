// place in: .
package slug

import (
	"archive/tar"
	"bytes"
	"compress/gzip"
	"errors"
	"io"
	"os"
	"path/filepath"
	"strings"
	"testing"
)

// TestHuntLinkEscapesThroughInTreeLink packs a tree holding
//
//	<src>/sub/up -> ..            (a directory link to <src>: in-tree, fine)
//	<src>/sub/l  -> up/../secret  (really <src>/../secret: OUT of the tree)
//
// The operating system resolves "up/.." against the place "up" points to
// (<src>), so "l" names the file "secret" lying next to the source directory.
// Nothing is allow-listed. Without dereferencing Pack has to fail with an
// illegal-slug error; with dereferencing it may store a copy of the file but
// never the link. A stored link is dangerous, not merely wrong: after Unpack
// it names the file "secret" next to the *destination* directory.
func TestHuntLinkEscapesThroughInTreeLink(t *testing.T) {
	for _, tc := range []struct {
		name   string
		target string // of <src>/sub/l
	}{
		{"direct", "up/../secret"},
		{"deeper", "up/sub/../../secret"},
		{"two links", "up/sub/up/../secret"},
	} {
		for _, dereference := range []bool{false, true} {
			name := tc.name + ", dereference off"
			if dereference {
				name = tc.name + ", dereference on"
			}
			t.Run(name, func(t *testing.T) {
				td := t.TempDir()
				work := filepath.Join(td, "work")
				src := filepath.Join(work, "src")
				hunt1Write(t, filepath.Join(work, "secret"), "OUTSIDE THE SOURCE DIRECTORY")
				hunt1Write(t, filepath.Join(src, "main.tf"), "main")
				hunt1Write(t, filepath.Join(src, "sub", "g"), "g")
				if err := os.Symlink("..", filepath.Join(src, "sub", "up")); err != nil {
					t.Fatal(err)
				}
				if err := os.Symlink(tc.target, filepath.Join(src, "sub", "l")); err != nil {
					t.Fatal(err)
				}

				// Make sure the tree is what the comment says it is.
				real, err := filepath.EvalSymlinks(filepath.Join(src, "sub", "l"))
				if err != nil {
					t.Fatal(err)
				}
				if want := filepath.Join(work, "secret"); real != want {
					t.Fatalf("test setup: sub/l resolves to %q, want %q", real, want)
				}

				p := &Packer{dereference: dereference}
				var buf bytes.Buffer
				_, err = p.Pack(src, &buf)

				if !dereference {
					var illegal *IllegalSlugError
					if err == nil {
						t.Errorf("Pack succeeded although sub/l -> %q points out of the source directory", tc.target)
					} else if !errors.As(err, &illegal) {
						t.Errorf("Pack failed with something else than an illegal-slug error: %v", err)
					}
				}
				if err != nil {
					return
				}

				for _, h := range hunt1Headers(t, buf.Bytes()) {
					if h.Name == "sub/l" && h.Typeflag == tar.TypeSymlink {
						t.Errorf("Pack stored the out-of-tree link as a link: %q -> %q", h.Name, h.Linkname)
					}
				}

				// What that means for whoever unpacks the slug: a link in
				// the unpacked tree names a file outside of it.
				home := filepath.Join(td, "home")
				dst := filepath.Join(home, "dst")
				hunt1Write(t, filepath.Join(home, "secret"), "OUTSIDE THE DESTINATION DIRECTORY")
				if err := os.MkdirAll(dst, 0755); err != nil {
					t.Fatal(err)
				}
				if err := Unpack(bytes.NewReader(buf.Bytes()), dst); err != nil {
					t.Fatalf("Unpack refuses the slug Pack produced: %v", err)
				}
				err = filepath.Walk(dst, func(path string, info os.FileInfo, err error) error {
					if err != nil {
						return err
					}
					if info.Mode()&os.ModeSymlink == 0 {
						return nil
					}
					real, err := filepath.EvalSymlinks(path)
					if err != nil {
						return nil // dangling
					}
					if real != dst && !strings.HasPrefix(real, dst+string(filepath.Separator)) {
						body, _ := os.ReadFile(path)
						t.Errorf("unpacked link %q resolves to %q outside the destination directory (reads %q)", path, real, body)
					}
					return nil
				})
				if err != nil {
					t.Fatal(err)
				}
			})
		}
	}
}

func hunt1Write(t *testing.T, p, body string) {
	t.Helper()
	if err := os.MkdirAll(filepath.Dir(p), 0755); err != nil {
		t.Fatal(err)
	}
	if err := os.WriteFile(p, []byte(body), 0644); err != nil {
		t.Fatal(err)
	}
}

func hunt1Headers(t *testing.T, slug []byte) []*tar.Header {
	t.Helper()
	gz, err := gzip.NewReader(bytes.NewReader(slug))
	if err != nil {
		t.Fatal(err)
	}
	tr := tar.NewReader(gz)
	var hs []*tar.Header
	for {
		h, err := tr.Next()
		if err == io.EOF {
			return hs
		}
		if err != nil {
			t.Fatal(err)
		}
		hs = append(hs, h)
	}
}
