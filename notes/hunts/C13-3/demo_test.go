// place in: sourcebundle
package sourcebundle

// Demo for: the deprecation recorded for a selected module version is taken
// from whichever listed version of the same precedence the registry happened
// to list first, so the manifest depends on the order of the registry's
// listing and gives one version what the registry returned for another.

import (
	"context"
	"io/fs"
	"net/url"
	"os"
	"path/filepath"
	"testing"

	"github.com/apparentlymart/go-versions/versions"
	"github.com/hashicorp/go-slug/sourceaddrs"
	regaddr "github.com/hashicorp/terraform-registry-address"
)

type hunt3Fetcher struct{}

func (hunt3Fetcher) FetchSourcePackage(ctx context.Context, sourceType string, u *url.URL, targetDir string) (FetchSourcePackageResponse, error) {
	return FetchSourcePackageResponse{}, os.WriteFile(filepath.Join(targetDir, "main.tf"), []byte("# "+u.String()+"\n"), 0644)
}

type hunt3Registry struct {
	listing []ModulePackageInfo
}

func (r hunt3Registry) ModulePackageVersions(ctx context.Context, pkgAddr regaddr.ModulePackage) (ModulePackageVersionsResponse, error) {
	return ModulePackageVersionsResponse{Versions: r.listing}, nil
}

func (r hunt3Registry) ModulePackageSourceAddr(ctx context.Context, pkgAddr regaddr.ModulePackage, version versions.Version) (ModulePackageSourceAddrResponse, error) {
	addr, err := sourceaddrs.ParseRemoteSource("https://example.com/" + version.String() + ".tgz")
	if err != nil {
		return ModulePackageSourceAddrResponse{}, err
	}
	return ModulePackageSourceAddrResponse{SourceAddr: addr}, nil
}

type hunt3NoDeps struct{}

func (hunt3NoDeps) FindDependencies(fsys fs.FS, subPath string, deps *Dependencies) Diagnostics {
	return nil
}

func TestHuntDeprecationOfAnotherVersion(t *testing.T) {
	// The registry has two builds of 1.0.0. Only the "+old" one is deprecated.
	deprecated := ModulePackageInfo{
		Version:     versions.MustParseVersion("1.0.0+old"),
		Deprecation: &ModulePackageVersionDeprecation{Reason: "the +old build is broken", Link: "https://example.com/why"},
	}
	fine := ModulePackageInfo{
		Version: versions.MustParseVersion("1.0.0+new"),
	}

	listings := map[string][]ModulePackageInfo{
		"deprecated build listed first": {deprecated, fine},
		"deprecated build listed last":  {fine, deprecated},
	}
	for name, listing := range listings {
		t.Run(name, func(t *testing.T) {
			b, err := NewBuilder(t.TempDir(), hunt3Fetcher{}, hunt3Registry{listing})
			if err != nil {
				t.Fatal(err)
			}
			for _, s := range []string{
				"example.com/foo/bar/baz@1.0.0+old",
				"example.com/foo/bar/baz@1.0.0+new",
			} {
				addr, err := sourceaddrs.ParseFinalRegistrySource(s)
				if err != nil {
					t.Fatal(err)
				}
				diags := b.AddFinalRegistrySource(context.Background(), addr, hunt3NoDeps{})
				for _, d := range diags {
					t.Fatalf("%s: %s", d.Description().Summary, d.Description().Detail)
				}
			}
			bundle, err := b.Close()
			if err != nil {
				t.Fatal(err)
			}

			pkgAddr := regaddr.MustParseModuleSource("example.com/foo/bar/baz").Package

			got := bundle.RegistryPackageVersionDeprecation(pkgAddr, versions.MustParseVersion("1.0.0+old"))
			if got == nil {
				t.Errorf("1.0.0+old is deprecated in the registry, but not in the bundle")
			} else if got.Reason != "the +old build is broken" || got.Version != "1.0.0+old" {
				t.Errorf("wrong deprecation for 1.0.0+old: %#v", got)
			}

			got = bundle.RegistryPackageVersionDeprecation(pkgAddr, versions.MustParseVersion("1.0.0+new"))
			if got != nil {
				t.Errorf("1.0.0+new is not deprecated in the registry, but the bundle says: %#v", got)
			}
		})
	}
}
