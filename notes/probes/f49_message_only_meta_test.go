package sourcebundle

import (
	"context"
	"net/url"
	"testing"

	"github.com/hashicorp/go-slug/sourceaddrs"
)

// A fetcher may know only part of the metadata ("a non-nil value will
// typically omit some or all of the fields"): a commit message with no commit
// id must come back from the finished bundle as it was supplied.
func TestF49MessageOnlyMetaSurvives(t *testing.T) {
	targetDir := t.TempDir()
	fetcher := packageFetcherFunc(func(ctx context.Context, sourceType string, u *url.URL, dir string) (FetchSourcePackageResponse, error) {
		var ret FetchSourcePackageResponse
		ret.PackageMeta = PackageMetaWithGitMetadata("", "only a message")
		return ret, nil
	})
	b, err := NewBuilder(targetDir, fetcher, nil)
	if err != nil {
		t.Fatal(err)
	}
	src := sourceaddrs.MustParseSource("git::https://example.com/foo.git").(sourceaddrs.RemoteSource)
	diags := b.AddRemoteSource(context.Background(), src, noDependencyFinder)
	if diags.HasErrors() {
		t.Fatal(diags)
	}
	bundle, err := b.Close()
	if err != nil {
		t.Fatal(err)
	}
	meta := bundle.RemotePackageMeta(src.Package())
	if meta == nil {
		t.Fatalf("metadata supplied by the fetcher is gone from the finished bundle")
	}
	if got := meta.GitCommitMessage(); got != "only a message" {
		t.Fatalf("commit message %q", got)
	}
	if got := meta.GitCommitID(); got != "" {
		t.Fatalf("commit id %q", got)
	}
}
