// place in: sourceaddrs  (package sourceaddrs) — fails on 09a5438, passes from fa09299 on
package sourceaddrs

import (
	"net/url"
	"testing"
)

func TestProbeF51OpaqueAfterReparse(t *testing.T) {
	for _, u := range []*url.URL{
		{Scheme: "https", OmitHost: true, Path: "user:pw@example.com/repo.git"},
		{Scheme: "https", Path: "user:pw@example.com/repo.git"},
	} {
		s, err := MakeRemoteSource("git", u, "")
		if err == nil {
			t.Errorf("%q accepted; prints %q, which carries credentials and does not parse back", u.String(), s.String())
		}
	}
}
