package slug

import (
	"bytes"
	"os"
	"path/filepath"
	"syscall"
	"testing"
	"time"
)

// A link whose target spells "<dir-link>/../x" is read by the kernel through
// the directory link; resolving it as text gives another file. Pack checks the
// one and opens the other: here the one is a regular file and the other a
// fifo, and opening a fifo for reading blocks until somebody writes to it.
func TestF50DereferencedLinkThroughDirectoryLink(t *testing.T) {
	tmp := t.TempDir()
	src := filepath.Join(tmp, "src")
	ext := filepath.Join(tmp, "ext")
	other := filepath.Join(tmp, "other", "dir")
	for _, d := range []string{src, ext, other} {
		if err := os.MkdirAll(d, 0755); err != nil {
			t.Fatal(err)
		}
	}
	if err := os.WriteFile(filepath.Join(ext, "x"), []byte("regular"), 0644); err != nil {
		t.Fatal(err)
	}
	if err := syscall.Mkfifo(filepath.Join(tmp, "other", "x"), 0644); err != nil {
		t.Fatal(err)
	}
	if err := os.Symlink(other, filepath.Join(ext, "sub")); err != nil {
		t.Fatal(err)
	}
	if err := os.Symlink("../ext/sub/../x", filepath.Join(src, "link")); err != nil {
		t.Fatal(err)
	}
	done := make(chan error, 1)
	go func() {
		p, err := NewPacker(DereferenceSymlinks())
		if err != nil {
			done <- err
			return
		}
		_, err = p.Pack(src, &bytes.Buffer{})
		done <- err
	}()
	select {
	case err := <-done:
		t.Logf("Pack returned: %v", err)
	case <-time.After(3 * time.Second):
		// let the blocked open go so that the test binary can finish
		if w, err := os.OpenFile(filepath.Join(tmp, "other", "x"), os.O_WRONLY, 0); err == nil {
			w.Close()
		}
		t.Fatalf("Pack is blocked opening a fifo it never examined")
	}
}
